"""C16: padding templates are accepted only with the complete dummy sentinel.

Templates.tla: a template is the set of sentinel conditions it fails (leaf: proof invalid, block hash, output 1,
output 2, asset id, exit account 1, exit account 2; private batch: proof invalid, block hash, some slot sum, some slot
account) plus a position class; every entry point that accepts a template is its guard sequence (what it does before
it looks at the template, the validator's guards in code order, then the use of the template).  TLC walks all 2^7 /
2^4 subsets x position x entry point and checks: accepted => no deviation, rejected => not used, the all-clear
template is accepted.  Every emitted cell is a concrete template handed to the REAL entry point
(harness/src/bin_art/templates.rs): valid deviating proofs where one can exist (any deviation over the stand-in child
circuits at `new`; real leaf proofs / canonical private-batch proofs over a genuine spend at the loaders that pin the
canonical circuits), proofs spoiled after proving for the `proof` flag."""
import json
import random
from .. import core
from ..registry import register

FULL = {"pb_new", "pb_new_from_bytes", "pb_build", "pub_new", "pub_new_from_bytes", "agg_with_limits"}
CANON_LEAF = ("pb_new_from_bytes", "pb_new_from_files", "pb_new_from_binaries_dir", "pb_build")
CANON_PB = ("pub_new_from_bytes", "pub_new_from_files", "pub_new_from_binaries_dir", "agg_new", "agg_with_limits")
SPEC_MUTANTS = ("NoExits", "Out1Only", "FirstSlot", "BytesSkips")
NAMES = {
    "pb_new": "PrivateBatchProver::new (stand-in leaf circuit)",
    "pb_new_from_bytes": "PrivateBatchProver::new_from_bytes",
    "pb_new_from_files": "PrivateBatchProver::new_from_files",
    "pb_new_from_binaries_dir": "PrivateBatchProver::new_from_binaries_dir",
    "pb_build": "generate_private_batch_circuit_binaries(include_prover = true)",
    "pub_new": "PublicBatchProver::new (stand-in private-batch circuit, 4 exit slots)",
    "pub_new_from_bytes": "PublicBatchProver::new_from_bytes",
    "pub_new_from_files": "PublicBatchProver::new_from_files",
    "pub_new_from_binaries_dir": "PublicBatchProver::new_from_binaries_dir",
    "agg_new": "PublicBatchAggregator::new",
    "agg_with_limits": "PublicBatchAggregator::with_limits",
}


def describe(c):
    d = "+".join(c["devs"]) or "none (all-clear)"
    return f"{NAMES.get(c['entry'], c['entry'])}: {c['kind']} template failing {{{d}}}, position class {c['pos']}"


def select(rows, quick, seed):
    """quick: every entry point sees the all-clear template and every single deviation; entry points that own a
    validator call see both position classes and more multi-field subsets; thorough: every cell"""
    if not quick:
        return rows
    rng = random.Random(seed)
    by_entry = {}
    for r in rows:
        by_entry.setdefault(r["entry"], []).append(r)
    out = []
    for entry in sorted(by_entry):
        rs = sorted(by_entry[entry], key=lambda r: (sorted(r["devs"]), r["pos"]))
        full = entry in FULL
        singles = [r for r in rs if len(r["devs"]) <= 1]
        multis = [r for r in rs if len(r["devs"]) > 1]
        if full:
            out += singles
        else:
            seen = {}
            for r in singles:
                k = tuple(r["devs"])
                if k not in seen or rng.random() < 0.5:
                    seen[k] = r
            out += list(seen.values())
        # one position class per multi-field subset
        per_subset = {}
        for r in multis:
            k = tuple(sorted(r["devs"]))
            if k not in per_subset or rng.random() < 0.5:
                per_subset[k] = r
        subsets = sorted(per_subset)
        if rs[0]["kind"] == "pb" and full:
            pick = subsets
        else:
            n = 10 if full else 2
            pick = rng.sample(subsets, min(n, len(subsets)))
            allk = max(subsets, key=len) if subsets else None
            if full and allk and allk not in pick:
                pick.append(allk)
        out += [per_subset[k] for k in pick]
        # scalars outside the u32 range (where a valid proof can carry them): every single deviation and a few subsets
        wide = [r for r in multis if r["pos"] == "wide" and r not in out]
        out += rng.sample(wide, min(6, len(wide)))
    return out


@register("C16")
def check(ctx):
    core.build_harness(ctx, "vh-art")
    ctx.level = "model_checking"
    ctx.assumptions += [
        "a template is characterised by which sentinel conditions it fails and by a position class (first felt / first "
        "exit slot with value 1, last felt / last exit slot with the largest value); non-sentinel fields (fee, nullifier, "
        "block number) are left as the genuine dummy has them",
        "valid deviating templates: any deviation at PrivateBatchProver::new / PublicBatchProver::new (the child circuit "
        "is a parameter: test-helpers' fake leaf, a free circuit with the private-batch layout for 2 leaves); at the "
        "entry points that pin the canonical circuits, real leaf proofs (dummy-mode proofs with asset id / exit accounts "
        "set; genuine spends for a non-zero block hash, with and without outputs) and canonical private-batch proofs "
        "over one genuine spend; a deviation no valid proof of the canonical circuit can carry (outputs under a zero "
        "block hash; exit slots under a zero block hash) is exercised there only with a spoiled proof",
        "an invalid proof is a valid one with a public input changed after proving",
        "quick tier: all-clear and every single deviation at every entry point; both position classes and 10 seeded "
        "multi-field subsets (all 16 for private-batch templates) at the entry points that call a validator themselves, "
        "2 at the delegating wrappers; thorough tier: every cell",
    ]
    res = core.run_tlc(ctx, "MC_Templates", "MC_Templates.cfg", workers=4, timeout=900, coverage=False)
    if res["violated"]:
        ctx.violation(f"TLC: {res['violated']} violated in Templates model", {"tlc": core.tlc_counterexample(res["out"])})
        return core.finish(ctx)
    if not ctx.quick or getattr(ctx, "selftest", False):
        for m in SPEC_MUTANTS:
            r = core.run_tlc(ctx, "MC_Templates", f"MC_Templates_mut{m}.cfg", workers=2, timeout=600, coverage=False,
                             expect_violation=True, quiet=True)
            if not r["violated"]:
                raise core.ToolError(f"vacuity: spec mutant MC_Templates_mut{m}.cfg is accepted by TLC")
            ctx.cov.setdefault("spec_mutants_rejected", []).append(m)
    rows = [json.loads(x) for x in sorted(set(res["prints"].get("REPLAY", [])))]
    if not rows:
        raise core.ToolError("no cells emitted by MC_Templates")
    ctx.cov["model_cells"] = len(rows)
    cases = select(rows, ctx.quick, ctx.seed)
    rep = None
    if ctx.replay:
        rep = json.loads(open(ctx.replay).read())
        cases = [rep["case"]["cell"]]
    root = ctx.workdir / "art"
    inp, out = ctx.workdir / "templates_in.ndjson", ctx.workdir / "templates_out.ndjson"
    inp.write_text("\n".join(json.dumps(c) for c in cases) + "\n")
    core.vh(ctx, ["templates-replay", root, inp, out], bin="vh-art", timeout=7200)
    obs, done = {}, False
    for r in core.jsonl_read(out):
        if "i" in r:
            obs[r["i"]] = r
        done = done or r.get("done", False)
    if not done or len(obs) != len(cases):
        raise core.ToolError(f"templates-replay returned {len(obs)} of {len(cases)} cells")

    per_entry, realised, distinct, allclear_rejected, panics = {}, {}, set(), [], 0
    for i, c in enumerate(cases):
        o = obs[i]
        if "tool_error" in o:
            raise core.ToolError(f"templates-replay: {o['tool_error']} on {describe(c)}")
        e = realised.setdefault(c["entry"], {"valid_deviations": [], "spoiled_proofs": 0, "not_realisable_as_valid": []})
        if not o["realised"]:
            e["not_realisable_as_valid"].append("+".join(c["devs"]))
            continue
        actual = set(o["flags"]) | (set() if o["verifies"] else {"proof"})
        if actual != set(c["devs"]):
            raise core.ToolError(f"harness realised {sorted(actual)} for {describe(c)}")
        ctx.cov["evaluations"] += 1
        distinct.add((c["entry"], tuple(sorted(c["devs"])), c["pos"]))
        if "proof" in c["devs"]:
            e["spoiled_proofs"] += 1
        elif c["devs"]:
            e["valid_deviations"].append("+".join(c["devs"]) + "@" + c["pos"])
        st = per_entry.setdefault(c["entry"], {"ok": 0, "rejected": 0})
        st["ok" if o["verdict"] == "ok" else "rejected"] += 1
        panics += o["verdict"] == "panic"
        bad = []
        if c["verdict"] == "rejected" and o["verdict"] == "ok":
            bad.append(f"accepted (the model rejects at guard '{c['stage']}')")
        if o["verdict"] != "ok" and o.get("used") is True:
            bad.append("rejected, yet a dummy private-batch proof built from it was published")
        if c["verdict"] == "accepted" and o["verdict"] != "ok":
            allclear_rejected.append(c["entry"])
        for b in bad:
            ctx.violation(f"{describe(c)}: {b}", {"engine": "templates-replay", "cell": c, "observed": o})
        if not bad:
            ctx.cov["traces_validated_against_impl"] += 1
    if rep is None and not ctx.violations:
        if allclear_rejected:
            raise core.ToolError(f"vacuity: the all-clear template is not accepted by {sorted(set(allclear_rejected))}")
        silent = [x for x, st in per_entry.items() if st["ok"] == 0 or st["rejected"] == 0]
        if silent or len(per_entry) != 11:
            raise core.ToolError(f"vacuity: entry points that did not both accept and reject: {silent or 'some were not run'}")
        for entry in CANON_LEAF:
            have = {v.split("@")[0] for v in realised[entry]["valid_deviations"]}
            if not {"asset", "exit1", "exit2", "block"} <= have:
                raise core.ToolError(f"no valid real leaf proof was realised for some of asset/exit1/exit2/block at {entry}: {sorted(have)}")
        for entry in CANON_PB:
            have = {v.split("@")[0] for v in realised[entry]["valid_deviations"]}
            if "block" not in have:
                raise core.ToolError(f"no valid canonical private-batch proof over a real spend was realised at {entry}")
    for e in realised.values():
        e["valid_deviations"] = sorted(set(e["valid_deviations"]))
        e["not_realisable_as_valid"] = sorted(set(e["not_realisable_as_valid"]))
    ctx.cov["distinct_nontrivial"] = len(distinct)
    ctx.cov["per_entry_point"] = per_entry
    ctx.cov["realised"] = realised
    ctx.cov["panics_counted_as_rejections"] = panics
    ctx.cov["rule"] = ("one evaluation per concrete template handed to a real entry point; cells = entry point (11) x subset "
                       "of failed sentinel conditions (2^7 leaf, 2^4 private batch) x position class, all enumerated by TLC "
                       f"({len(rows)} cells), replayed: " + ("the quick selection (see assumptions)" if ctx.quick else "all") +
                       "; distinct = distinct (entry point, subset, position); cells whose valid form cannot exist for the "
                       "canonical circuit are listed under realised[entry].not_realisable_as_valid and not counted")
    for c in cases[:: max(1, len(cases) // 5)][:5]:
        i = cases.index(c)
        ctx.add_sample({"kind": "template handed to the real entry point", "cell": describe(c), "model": c["verdict"],
                        "observed": {k: obs[i].get(k) for k in ("realised", "flags", "verifies", "verdict", "used")}})
    ctx.cov["exhaustive"] = rep is None and not ctx.quick
    return core.finish(ctx)


MANIFEST = {
    "engines": {"templates": dict(
        path="specs/Templates.tla specs/MC_Templates.tla harness/src/bin_art/templates.rs harness/src/bin_art/canon.rs "
             "vlib/props/templates.py",
        kind="TLA+ decision-procedure spec (two validators as guard sequences, 11 entry points as programs, the sentinel as "
             "the declarative property) + TLC exhaustive over all subsets of failed sentinel conditions x position x entry "
             "point + replay of the cells on the real constructors / loaders / build step / aggregator init with real proofs")},
    "checks": {
        "C16": dict(engine="templates", ref="6.4", category="model_checking",
                    text="Templates.tla describes a padding template by the set of sentinel conditions it fails (leaf: proof "
                         "invalid, block hash, output 1, output 2, asset id, exit account 1, exit account 2; private batch: proof "
                         "invalid, block hash, some slot sum, some slot account) and a position class, the two validators as the "
                         "guard sequences the code runs, and the 11 entry points that accept a template (PrivateBatchProver::new/"
                         "new_from_bytes/new_from_files/new_from_binaries_dir, generate_private_batch_circuit_binaries, "
                         "PublicBatchProver::new/new_from_bytes/new_from_files/new_from_binaries_dir, PublicBatchAggregator::new/"
                         "with_limits) as programs ending in the use of the template. TLC checks on all cells (1 450 + the out-of-range scalar class at PrivateBatchProver::new): accepted => "
                         "complete sentinel, rejected => never used, all-clear accepted; four spec mutants must be rejected. "
                         "Cells are replayed on the real entry points under catch_unwind with real proofs: every deviation as a "
                         "valid proof over stand-in child circuits at the two `new` constructors; at the entry points pinning "
                         "the canonical circuits, real leaf proofs (asset / exit accounts on a dummy-mode proof, genuine spends "
                         "for block hash and outputs), canonical private-batch proofs over a genuine spend, and proofs spoiled "
                         "after proving; the build step is also checked not to publish a dummy private-batch proof from a "
                         "rejected template. Compared: Ok/Err only.",
                    note="Trusted: TLC; Plonky2's prover/verifier (used to manufacture the templates and to establish the "
                         "'proof' flag); the harness' own classification of public inputs (written from the documented layout, "
                         "cross-checked against the requested deviations). Quick tier replays a selection of the multi-field "
                         "subsets (all singles everywhere); thorough replays every cell. Deviations that no valid proof of the "
                         "canonical circuit can carry are exercised at the canonical entry points only as spoiled proofs."),
    },
}
