"""C06-C10, C12, C13, C36: the aggregation wrappers.

Specs: BatchDecl.tla (declarative semantics from the property texts), PrivateBatch.tla / PublicBatch.tla
(the constraint programs the code builds, one action per circuit section / loop iteration), TwoLayer.tla
(composition), WrapperTrace.tla (the same declarative module instantiated with limb arithmetic).
TLC: program <=> declaration (output, acceptance), conservation, order/dummy independence, spec mutants.
Binding: TLC-generated batches are embedded into real values and evaluated on the REAL constraint
builders (exported by the cfg-guarded hooks, built over free child public inputs) by the
adversarial-witness oracle: honest witness (verdict and every public input compared with the model),
metamorphic variants (slot permutations, altered dummy contents), override catalogue on the real hint
generators (C10); seeded real-domain batches are recorded and validated by WrapperTrace."""
import json
import random
from .. import core
from ..registry import register

LEAF = 21


# ------------------------------------------------------------------ TLC
def tlc(ctx, module, cfg, env, workers=10, timeout=3600, simulate=None, depth=None, expect_violation=False, quiet=False):
    return core.run_tlc(ctx, module, cfg, workers=workers, timeout=timeout, env_extra=env, coverage=False,
                        simulate=simulate, depth=depth, expect_violation=expect_violation, quiet=quiet, xmx="12g")


def pb_model(ctx, literal=False):
    """exhaustive TLC on the private-batch program; returns False if an invariant failed"""
    runs = [("near3small", 2)] if ctx.quick else [("near3small", 2), ("small", 2), ("near2", 3)]
    for dom, n in runs:
        res = tlc(ctx, "MC_PrivateBatch", "MC_PrivateBatch.cfg", {"PBDOM": dom, "PBN": n})
        if res["violated"]:
            ctx.violation(f"TLC: {res['violated']} violated in PrivateBatch model (domain {dom}, N={n})",
                          {"engine": "tlc", "tlc": core.tlc_counterexample(res["out"])})
            return False
    if not ctx.quick:
        for mut in ("MaskDummies", "UniqueOnlyReal", "FirstRealScan"):
            r = tlc(ctx, "MC_PrivateBatch", f"MC_PrivateBatch_mut{mut}.cfg", {"PBDOM": "near3small", "PBN": 2},
                    expect_violation=True, quiet=True)
            if not r["violated"]:
                raise core.ToolError(f"vacuity: spec mutant {mut} accepted by TLC")
            ctx.cov.setdefault("spec_mutants_rejected", []).append(mut)
    return True


def qb_model(ctx):
    runs = [("near", 2, 2)] if ctx.quick else [("near", 2, 2), ("near", 3, 1), ("full", 2, 1)]
    for dom, m, n in runs:
        res = tlc(ctx, "MC_PublicBatch", "MC_PublicBatch.cfg", {"QBDOM": dom, "QBM": m, "QBN": n})
        if res["violated"]:
            ctx.violation(f"TLC: {res['violated']} violated in PublicBatch model (domain {dom}, M={m}, N={n})",
                          {"engine": "tlc", "tlc": core.tlc_counterexample(res["out"])})
            return False
    if not ctx.quick:
        for mut in ("ZeroDummies", "CheckAsset"):
            r = tlc(ctx, "MC_PublicBatch", f"MC_PublicBatch_mut{mut}.cfg", {"QBDOM": "near", "QBM": 2, "QBN": 2},
                    expect_violation=True, quiet=True)
            if not r["violated"]:
                raise core.ToolError(f"vacuity: spec mutant {mut} accepted by TLC")
            ctx.cov.setdefault("spec_mutants_rejected", []).append(mut)
    return True


def pb_cases(ctx, per_n):
    out = []
    for n, num in per_n:
        res = tlc(ctx, "MC_PrivateBatch", "MC_PrivateBatch_sim.cfg", {"PBDOM": "near2", "PBN": n}, workers=1,
                  simulate=num, depth=4 * n + 7, timeout=1200)
        if res["violated"]:
            ctx.violation(f"TLC (simulation): {res['violated']} violated in PrivateBatch model, N={n}",
                          {"engine": "tlc", "tlc": core.tlc_counterexample(res["out"])})
            return None
        out += [json.loads(x) for x in sorted(set(res["prints"].get("REPLAY", [])))]
    return out


def qb_cases(ctx, per_mn):
    out = []
    for m, n, num in per_mn:
        res = tlc(ctx, "MC_PublicBatch", "MC_PublicBatch_sim.cfg", {"QBDOM": "near", "QBM": m, "QBN": n}, workers=1,
                  simulate=num, depth=4 * m + 4, timeout=1200)
        if res["violated"]:
            ctx.violation(f"TLC (simulation): {res['violated']} violated in PublicBatch model, M={m} N={n}",
                          {"engine": "tlc", "tlc": core.tlc_counterexample(res["out"])})
            return None
        out += [json.loads(x) for x in sorted(set(res["prints"].get("REPLAY", [])))]
    return out


# ------------------------------------------------------------------ embedding of model outputs
def dg(emb, v, role="null"):
    """model digest -> real digest.  Nullifiers (and the aggregator address) live on the ordered number line `dig`; the
    equality-only roles (exit accounts, block hashes) use `eq`, which contains a non-zero digest with limb sum 0 and a pair
    of distinct digests with equal limb sums (see harness/src/wrapper.rs: Emb)."""
    m = emb["eq"] if role in ("acct", "block") and "eq" in emb else emb["dig"]
    return list(m[str(v)])


def sc(emb, case, kind, v):
    return emb["scal"][case.get("mode", 0)][kind][v]


def pb_expected(case, emb):
    o, n = case["out"], case["n"]
    # with no real slot the header fee / number are the literal zero, not the embedding of the model value 0
    none_real = o["block"] == 0
    v = ([o["nslots"], sc(emb, case, "asset", o["asset"]), 0 if none_real else sc(emb, case, "fee", o["fee"])] + dg(emb, o["block"], "block")
         + [0 if none_real else sc(emb, case, "number", o["number"])])
    for s in o["slots"]:
        v += [s[0] * emb["amt_unit"]] + dg(emb, s[1], "acct")
    for x in o["nulls"]:
        v += dg(emb, x)
    return v + [0] * (LEAF * n + 8 - len(v))


def qb_expected(case, emb):
    o = case["out"]
    none_real = o["block"] == 0
    z = lambda kind: 0 if none_real else sc(emb, case, kind, o[kind])
    v = dg(emb, o["addr"]) + [z("asset"), z("fee")] + dg(emb, o["block"], "block") + [z("number"), o["total"]]
    for s in o["slots"]:
        v += [s[0] * emb["amt_unit"]] + dg(emb, s[1], "acct")
    for x in o["nulls"]:
        v += dg(emb, x)
    return v


def is_dummy(c):
    return c["block"] == 0


def numbers_follow_blocks(ch):
    reals = [c for c in ch if not is_dummy(c)]
    return all(a["number"] == b["number"] for a in reals for b in reals if a["block"] == b["block"])


# ------------------------------------------------------------------ private batch: replay + metamorphic + overrides
class Tally:
    def __init__(self):
        self.f = {}  # property -> list of (what, case)

    def add(self, pid, what, case):
        self.f.setdefault(pid, []).append((what, case))


def pb_replay(ctx, cases, tally, attack_share, rng):
    """cases: TLC lines.  Adds metamorphic variants, runs everything on the real circuit, fills tally."""
    work = []
    for idx, c in enumerate(cases):
        c = dict(c)
        c["attacks"] = 1 if rng.random() < attack_share else 0
        c["pick"] = rng.randrange(1 << 30)
        c["kind"] = "model"
        c["mode"] = idx % 3
        work.append(c)
    nbase = len(work)
    for idx in range(nbase):
        c = work[idx]
        n = c["n"]
        if n >= 2 and rng.random() < 0.5:
            p = list(range(n))
            while p == list(range(n)):
                rng.shuffle(p)
            work.append({"n": n, "ch": [c["ch"][k] for k in p], "hh": [c["hh"][k] for k in p], "kind": "perm", "base": idx, "attacks": 0, "mode": c["mode"]})
        dummies = [k for k in range(n) if is_dummy(c["ch"][k])]
        if dummies and rng.random() < 0.7:
            k = rng.choice(dummies)
            fld = rng.choice(["out1", "out2", "fee", "null", "exit1", "exit2", "number"])
            alt = {"out1": [0, 1, 3], "out2": [0, 1, 3], "fee": [0, 1], "null": [1, 2, 3], "exit1": [0, 1, 2], "exit2": [0, 1, 2], "number": [7, 8]}[fld]
            nv = rng.choice([v for v in alt if v != c["ch"][k][fld]])
            ch2 = [dict(x) for x in c["ch"]]
            ch2[k][fld] = nv
            work.append({"n": n, "ch": ch2, "hh": c["hh"], "kind": "alt", "base": idx, "slot": k, "field": fld, "attacks": 0, "mode": c["mode"]})
    inp = ctx.workdir / "pb_in.ndjson"
    inp.write_text("\n".join(json.dumps(c) for c in work) + "\n")
    outp = ctx.workdir / "pb_out.ndjson"
    core.vh(ctx, ["pb-replay", inp, outp], timeout=3000)
    rows = core.jsonl_read(outp)
    emb, rows = rows[0]["emb"], rows[1:]
    if len(rows) != len(work):
        raise core.ToolError("pb-replay returned a different number of results")
    stats = {"accepted": 0, "rejected": 0, "attacks": 0, "attacks_accepted": 0, "variants": len(work) - nbase, "f2_cases": 0}
    for c, r in zip(work, rows):
        if not r.get("built"):
            raise core.ToolError("the wrapper-only private-batch circuit could not be built")
        ctx.cov["evaluations"] += 1 + len(r["attacks"])
        h = r["honest"]
        n = c["n"]
        desc = f"N={n} children={compact(c['ch'])} hh={c['hh']}"
        if c["kind"] == "model":
            stats["accepted" if h["acc"] else "rejected"] += 1
            if h["acc"] != c["acc"]:
                tally.add("C07", f"model {'accepts' if c['acc'] else 'rejects'} the batch, the real private-batch circuit "
                          f"{'accepts' if h['acc'] else 'rejects'} it [{desc}]", {"engine": "pb-replay", "case": c, "observed": h})
                continue
            if h["acc"]:
                exp = pb_expected(c, emb)
                if h["pis"] != exp:
                    k = next((i for i, (a, b) in enumerate(zip(h["pis"], exp)) if a != b), min(len(exp), len(h["pis"])))
                    tally.add("C06", f"real private-batch output differs from the specified aggregate at public input {k} "
                              f"({region_pb(k, n)}): got {h['pis'][k] if k < len(h['pis']) else None}, expected {exp[k] if k < len(exp) else None}; "
                              f"lengths {len(h['pis'])}/{len(exp)} [{desc}]", {"engine": "pb-replay", "case": c, "observed": h, "expected": exp})
                pb_semantic_checks(c, h["pis"], emb, tally, desc, stats)
            ctx.cov["traces_validated_against_impl"] += 1
            # overrides (C10)
            for a in r["attacks"]:
                stats["attacks"] += 1
                if a["v"]["acc"]:
                    stats["attacks_accepted"] += 1
                    if not h["acc"]:
                        tally.add("C10", f"override {a['label']} makes the real verifier accept a batch whose honest witness fails [{desc}]",
                                  {"engine": "pb-replay", "case": c, "override": a})
                    elif a["v"]["pis"] != h["pis"]:
                        tally.add("C10", f"override {a['label']} is accepted by the real verifier with a different public output [{desc}]",
                                  {"engine": "pb-replay", "case": c, "override": a, "honest": h})
        else:
            b, hb = work[c["base"]], rows[c["base"]]["honest"]
            if h["acc"] != hb["acc"]:
                why = ("a slot permutation" if c["kind"] == "perm" else f"changing field {c['field']} of dummy slot {c['slot']}")
                tally.add("C07", f"{why} changes acceptance of the real private-batch circuit ({hb['acc']} -> {h['acc']}) [{desc}]",
                          {"engine": "pb-replay", "case": c, "base": b})
            elif h["acc"]:
                p, q = hb["pis"], h["pis"]
                ns = 8 + 10 * n
                if c["kind"] == "alt":
                    if p != q:
                        tally.add("C09", f"field {c['field']} of dummy slot {c['slot']} influences the real private-batch output [{desc}]",
                                  {"engine": "pb-replay", "case": c, "base": b, "got": q, "base_out": p})
                else:
                    hdr_same = p[:8] == q[:8] or not numbers_follow_blocks(b["ch"])
                    nz = lambda v: sorted(tuple(v[8 + 5 * k: 13 + 5 * k]) for k in range(2 * n) if any(v[8 + 5 * k: 13 + 5 * k]))
                    if not hdr_same or p[ns:] != q[ns:] or nz(p) != nz(q):
                        tally.add("C09", f"a slot permutation changes the header / nullifier region / exit groups of the real private-batch output [{desc}]",
                                  {"engine": "pb-replay", "case": c, "base": b, "got": q, "base_out": p})
    return stats


def compact(ch):
    return [[c["asset"], c["out1"], c["out2"], c["fee"], c["null"], c["exit1"], c["exit2"], c["block"], c["number"]] for c in ch]


def region_pb(k, n):
    if k < 8:
        return ["slot count", "asset", "fee", "block hash", "block hash", "block hash", "block hash", "block number"][k]
    if k < 8 + 10 * n:
        return f"exit slot {(k - 8) // 5}"
    if k < 8 + 14 * n:
        return f"nullifier {(k - 8 - 10 * n) // 4}"
    return "padding"


def pb_semantic_checks(c, pis, emb, tally, desc, stats):
    """C08 and the literal clause of C09 evaluated on the REAL output (independent of the model's output)"""
    n, ch = c["n"], c["ch"]
    unit = emb["amt_unit"]
    slots = [(pis[8 + 5 * k], tuple(pis[9 + 5 * k: 13 + 5 * k])) for k in range(2 * n)]
    paid = sum((x["out1"] + x["out2"]) * unit for x in ch if not is_dummy(x))
    if sum(s[0] for s in slots) != paid:
        tally.add("C08", f"real private-batch output sums to {sum(s[0] for s in slots)} but the real slots pay {paid} [{desc}]",
                  {"engine": "pb-replay", "case": c, "slots": slots})
    to = {}
    for x in ch:
        if not is_dummy(x):
            for e, o in ((x["exit1"], x["out1"]), (x["exit2"], x["out2"])):
                to[tuple(dg(emb, e, "acct"))] = to.get(tuple(dg(emb, e, "acct")), 0) + o * unit
    for k, (s, acct) in enumerate(slots):
        if s != 0 and to.get(acct, 0) != s:
            tally.add("C08", f"output slot {k} carries {s} for an account the real slots pay {to.get(acct, 0)} [{desc}]",
                      {"engine": "pb-replay", "case": c, "slots": slots})
    # literal clause: dummy / duplicate / unused output slots are all-zero
    zero = (0, (0, 0, 0, 0))
    masked = []
    for x in ch:
        if is_dummy(x):
            masked += [(0, 0), (0, 0)]
        else:
            masked += [(x["exit1"], x["out1"]), (x["exit2"], x["out2"])]
    paid_zero = sum(o for (e, o) in masked if e == 0) * unit
    for k in range(2 * n):
        x = ch[k // 2]
        first = all(masked[j][0] != masked[k][0] for j in range(k))
        kind = "dummy" if is_dummy(x) else ("duplicate" if not first else ("unused" if masked[k] == (0, 0) else None))
        if kind and slots[k] != zero:
            f2 = (slots[k][1] == (0, 0, 0, 0) and paid_zero != 0 and slots[k][0] == paid_zero and first)
            if f2:
                stats["f2_cases"] += 1
            tally.add("C09", f"{kind} output slot {k} is not the all-zero slot: {slots[k]} [{desc}]",
                      {"engine": "pb-replay", "case": c, "slot": k, "kind": kind, "f2_class": f2,
                       "value": slots[k][0], "paid_to_zero_account": paid_zero})


# ------------------------------------------------------------------ public batch
def qb_replay(ctx, cases, tally, attack_share, rng):
    work = []
    for idx, c in enumerate(cases):
        c = dict(c)
        c["attacks"] = 1 if rng.random() < attack_share else 0
        c["pick"] = rng.randrange(1 << 30)
        c["kind"] = "model"
        c["mode"] = idx % 3
        work.append(c)
    nbase = len(work)
    for idx in range(nbase):
        c = work[idx]
        m = len(c["inn"])
        # contents / nullifiers / numbers are never cross-checked: alter them in one inner
        if rng.random() < 0.6:
            k = rng.randrange(m)
            inn2 = json.loads(json.dumps(c["inn"]))
            fld = rng.choice(["number", "slots", "nulls"])
            if fld == "number":
                inn2[k]["number"] = 15 - inn2[k]["number"]
            elif fld == "slots":
                inn2[k]["slots"][0] = [3 - inn2[k]["slots"][0][0], 1 - inn2[k]["slots"][0][1]]
            else:
                inn2[k]["nulls"][0] = 3 - inn2[k]["nulls"][0]
            work.append({"inn": inn2, "addr": c["addr"], "kind": "alt", "base": idx, "slot": k, "field": fld, "attacks": 0, "pick": c["pick"], "mode": c["mode"]})
    inp = ctx.workdir / "qb_in.ndjson"
    inp.write_text("\n".join(json.dumps(c) for c in work) + "\n")
    outp = ctx.workdir / "qb_out.ndjson"
    core.vh(ctx, ["qb-replay", inp, outp], timeout=3000)
    rows = core.jsonl_read(outp)
    emb, rows = rows[0]["emb"], rows[1:]
    if len(rows) != len(work):
        raise core.ToolError("qb-replay returned a different number of results")
    stats = {"accepted": 0, "rejected": 0, "attacks": 0, "attacks_accepted": 0, "variants": len(work) - nbase}
    for c, r in zip(work, rows):
        if not r.get("built"):
            raise core.ToolError("the wrapper-only public-batch circuit could not be built")
        ctx.cov["evaluations"] += 1 + len(r["attacks"])
        h = r["honest"]
        m, n = len(c["inn"]), len(c["inn"][0]["nulls"])
        desc = f"M={m} N={n} inners={[[b['asset'], b['fee'], b['block'], b['number'], b['slots'], b['nulls']] for b in c['inn']]} addr={c['addr']}"
        if c["kind"] == "model":
            stats["accepted" if h["acc"] else "rejected"] += 1
            if h["acc"] != c["acc"]:
                tally.add("C13", f"model {'accepts' if c['acc'] else 'rejects'}, the real public-batch circuit "
                          f"{'accepts' if h['acc'] else 'rejects'} [{desc}]", {"engine": "qb-replay", "case": c, "observed": h})
                continue
            if h["acc"]:
                exp = qb_expected(c, emb)
                if h["pis"] != exp:
                    k = next((i for i, (a, b) in enumerate(zip(h["pis"], exp)) if a != b), min(len(exp), len(h["pis"])))
                    tally.add("C12", f"real public-batch output differs from order-preserving forwarding at public input {k}: got "
                              f"{h['pis'][k] if k < len(h['pis']) else None}, expected {exp[k] if k < len(exp) else None}; lengths {len(h['pis'])}/{len(exp)} [{desc}]",
                              {"engine": "qb-replay", "case": c, "observed": h, "expected": exp})
            ctx.cov["traces_validated_against_impl"] += 1
            for a in r["attacks"]:
                stats["attacks"] += 1
                if a["v"]["acc"]:
                    stats["attacks_accepted"] += 1
                    if not h["acc"]:
                        tally.add("C10", f"override {a['label']} makes the real verifier accept a public batch whose honest witness fails [{desc}]",
                                  {"engine": "qb-replay", "case": c, "override": a})
                    elif a["v"]["pis"] != h["pis"]:
                        tally.add("C10", f"override {a['label']} is accepted with a different public-batch output [{desc}]",
                                  {"engine": "qb-replay", "case": c, "override": a, "honest": h})
        else:
            hb = rows[c["base"]]["honest"]
            if h["acc"] != hb["acc"]:
                tally.add("C13", f"changing {c['field']} of inner {c['slot']} (never cross-checked) changes acceptance of the real public-batch circuit [{desc}]",
                          {"engine": "qb-replay", "case": c, "base": work[c["base"]]})
    return stats


# ------------------------------------------------------------------ traces
def wrapper_trace(ctx, kind, plans, tally, big=False):
    tr = ctx.workdir / f"wrap_trace_{kind}.ndjson"
    args = ["wrap-record", tr, plans, kind] + (["big"] if big else [])
    core.vh(ctx, args, timeout=3000)
    evs = core.jsonl_read(tr)
    if not evs:
        raise core.ToolError("wrap-record produced no events")
    ok, r = core.validate_trace(ctx, "WrapperTrace", tr, cfg="WrapperTrace.cfg", timeout=2400)
    ctx.cov["evaluations"] += len(evs)
    ctx.cov["trace_events"] = ctx.cov.get("trace_events", 0) + len(evs)
    acc = sum(1 for e in evs if e["acc"])
    if ok:
        ctx.cov["traces_validated_against_impl"] += len(evs)
        e = next((e for e in evs if e["acc"]), evs[0])
        ctx.add_sample({"kind": f"recorded real {kind} wrapper run accepted by WrapperTrace (values as 16-bit limbs)",
                        "n_children": len(e.get("ch", e.get("inn"))), "honest": e["honest"], "label": e["label"], "accepted": e["acc"]})
    else:
        fail = r["prints"].get("TRACEFAIL", [])
        info = json.loads(fail[0]) if fail else {}
        ev = info.get("first_unmatched", {})
        pid = attribute_trace(ev)
        tally.add(pid, f"recorded run of the real {ev.get('k')} wrapper violates the specification (event #{info.get('matched')}, "
                  f"honest={ev.get('honest')}, override={ev.get('label')}, accepted={ev.get('acc')}, "
                  f"{len(ev.get('ch', ev.get('inn', [])))} children)", {"engine": "wrapper-trace", "event": ev})
    return len(evs), acc


def attribute_trace(ev):
    if not ev.get("honest", True):
        return "C10"
    k = ev.get("k")
    if k == "two":
        return "C36"
    if k == "qb":
        return "C12" if ev.get("acc") else "C13"
    return "C06" if ev.get("acc") else "C07"


# ------------------------------------------------------------------ known finding F2 (C09)
def f2_matcher(entry, v):
    c = v["case"]
    return entry.get("id") == "F2" and (c.get("f2_class") is True or c.get("engine") == "tlc-literal-f2")


def report(ctx, tally, pid, also=()):
    for p in (pid,) + tuple(also):
        for what, case in tally.f.get(p, []):
            ctx.violation(what, case)
    other = {p: len(v) for p, v in tally.f.items() if p != pid and p not in also}
    if other:
        ctx.log(f"note: disagreements attributed to other properties: {other}")


def common(ctx):
    core.build_harness(ctx, "vh")
    ctx.level = "model_checking"
    core.vh(ctx, ["wrap-selftest"], timeout=600)
    ctx.assumptions += [
        "gadgets are used by contract inside the wrapper models (bytes_digest_eq decides equality, sort_digests4 yields the ascending "
        "permutation, range_check(x,32) <=> x < 2^32): established by Gadgets.tla and checks C30/C31",
        "child statements range over what leaf proofs can attest (scalars and amounts below 2^32); the real wrapper constraint builders "
        "are evaluated over free child public inputs (hook-exported builders, no recursive verifier), standard recursion config without "
        "proof-of-work grinding",
        "exhaustive models: N <= 3, M <= 3 over small value domains; larger sizes only through recorded real runs (N up to 5, thorough 16)",
    ]
    return Tally(), random.Random(ctx.seed)


def pb_pipeline(ctx, tally, rng, attack_share, trace_plans):
    if not pb_model(ctx):
        return None
    per_n = [(2, 400), (3, 400)] if ctx.quick else [(1, 300), (2, 3000), (3, 3000)]
    if ctx.replay:
        rc = json.loads(open(ctx.replay).read())["case"]
        cases = [rc["case"]] if "case" in rc and "ch" in rc.get("case", {}) else None
        if cases is None:
            cases = pb_cases(ctx, per_n)
    else:
        cases = pb_cases(ctx, per_n)
    if cases is None:
        return None
    stats = pb_replay(ctx, cases, tally, attack_share, rng)
    if stats["accepted"] == 0 or stats["rejected"] == 0:
        if not ctx.replay:
            raise core.ToolError(f"vacuity: replayed private batches accepted={stats['accepted']} rejected={stats['rejected']}")
    ctx.cov["pb_replay"] = stats
    if trace_plans and not ctx.replay:
        n, acc = wrapper_trace(ctx, "pb", trace_plans, tally, big=not ctx.quick)
        ctx.cov["pb_trace"] = {"events": n, "accepted": acc}
    for c in cases[:: max(1, len(cases) // 2)][:2]:
        ctx.add_sample({"kind": "TLC-generated private batch replayed on the real wrapper circuit", "n": c["n"], "children": compact(c["ch"]),
                        "hh": c["hh"], "model_accepts": c["acc"]})
    return len(cases)


def qb_pipeline(ctx, tally, rng, attack_share, trace_plans):
    if not qb_model(ctx):
        return None
    per = [(2, 2, 300), (3, 1, 300)] if ctx.quick else [(1, 1, 200), (2, 2, 2500), (3, 1, 2500), (3, 2, 1500)]
    cases = None
    if ctx.replay:
        rc = json.loads(open(ctx.replay).read())["case"]
        if "case" in rc and "inn" in rc.get("case", {}):
            cases = [rc["case"]]
    if cases is None:
        cases = qb_cases(ctx, per)
    if cases is None:
        return None
    stats = qb_replay(ctx, cases, tally, attack_share, rng)
    if (stats["accepted"] == 0 or stats["rejected"] == 0) and not ctx.replay:
        raise core.ToolError(f"vacuity: replayed public batches accepted={stats['accepted']} rejected={stats['rejected']}")
    ctx.cov["qb_replay"] = stats
    if trace_plans and not ctx.replay:
        n, acc = wrapper_trace(ctx, "qb", trace_plans, tally, big=not ctx.quick)
        ctx.cov["qb_trace"] = {"events": n, "accepted": acc}
    for c in cases[:: max(1, len(cases) // 2)][:2]:
        ctx.add_sample({"kind": "TLC-generated public batch replayed on the real wrapper circuit", "inners": c["inn"], "addr": c["addr"], "model_accepts": c["acc"]})
    return len(cases)


RULE_PB = ("private batches drawn by TLC (-simulate over PrivateBatch.tla with field-wise biased draws: compatible real statements, dummies, "
           "conflicts, sums around the range bound, duplicate nullifiers, repeated accounts) replayed on the real wrapper circuit with every "
           "public input compared; metamorphic variants (slot permutation, one altered field of a dummy slot); overrides on sampled hint "
           "sites; seeded real-domain batches validated by WrapperTrace. distinct = distinct model batches")
RULE_QB = ("public batches drawn by TLC (-simulate over PublicBatch.tla) replayed on the real wrapper circuit with every public input "
           "compared; variants altering never-cross-checked fields; overrides; seeded real-domain batches validated by WrapperTrace")


def _pb_check(ctx, pid, also=(), attack_share=0.05, matcher=None):
    tally, rng = common(ctx)
    n = pb_pipeline(ctx, tally, rng, attack_share, 150 if ctx.quick else 2500)
    report(ctx, tally, pid, also)
    ctx.cov["distinct_nontrivial"] = n or 0
    ctx.cov["rule"] = RULE_PB
    ctx.cov["exhaustive"] = False
    return core.finish(ctx, matcher=matcher)


@register("C06")
def check_c06(ctx):
    return _pb_check(ctx, "C06")


@register("C07")
def check_c07(ctx):
    return _pb_check(ctx, "C07")


@register("C08")
def check_c08(ctx):
    return _pb_check(ctx, "C08")


@register("C09")
def check_c09(ctx):
    # the literal clause fails on the model for exactly one class (finding F2); the main invariant carries the exception
    core.build_harness(ctx, "vh")
    lit = tlc(ctx, "MC_PrivateBatch", "MC_PrivateBatch_literal.cfg", {"PBDOM": "near3small", "PBN": 2}, expect_violation=True, quiet=True)
    if lit["violated"]:
        ctx.violation("TLC: the literal clause 'every dummy, duplicate or unused output slot is the all-zero slot' fails on the model of the "
                      "current code; the main invariant (ZeroSlotsExceptF2) shows every failing state has a real leaf paying the zero account",
                      {"engine": "tlc-literal-f2", "f2_class": True, "tlc": core.tlc_counterexample(lit["out"], 60)})
    return _pb_check(ctx, "C09", matcher=f2_matcher)


@register("C12")
def check_c12(ctx):
    tally, rng = common(ctx)
    n = qb_pipeline(ctx, tally, rng, 0.05, 150 if ctx.quick else 2500)
    report(ctx, tally, "C12")
    ctx.cov["distinct_nontrivial"] = n or 0
    ctx.cov["rule"] = RULE_QB
    ctx.cov["exhaustive"] = False
    return core.finish(ctx)


@register("C13")
def check_c13(ctx):
    tally, rng = common(ctx)
    n = qb_pipeline(ctx, tally, rng, 0.05, 150 if ctx.quick else 2500)
    report(ctx, tally, "C13")
    ctx.cov["distinct_nontrivial"] = n or 0
    ctx.cov["rule"] = RULE_QB
    ctx.cov["exhaustive"] = False
    return core.finish(ctx)


@register("C10")
def check_c10(ctx):
    """no witness freedom: overrides everywhere (both wrappers, heavier share) + the gadget models"""
    from . import gadgets as G
    tally, rng = common(ctx)
    if not ctx.quick and not ctx.replay:
        core.tlaps_lemmas(ctx)      # unique canonical split, no wrap of grouped sums: production constants (TLAPS)
    n1 = pb_pipeline(ctx, tally, rng, 0.3 if ctx.quick else 0.6, 60 if ctx.quick else 1500)
    n2 = qb_pipeline(ctx, tally, rng, 0.3 if ctx.quick else 0.6, 60 if ctx.quick else 1500) if n1 is not None else None
    report(ctx, tally, "C10")
    if not ctx.violations and not ctx.replay:
        lines = G.tlc_modes(ctx, 2, ["lt", "contracts", "sort1"])
        if lines is not None:
            lt = [c for c in lines if c["g"] in ("lt", "enf")]
            st = [c for c in lines if c["g"] == "sort"]
            G.replay(ctx, 2, lt, attack_every=5 if ctx.quick else 1)
            groups = sorted(G.group_inputs(st).items())
            step = max(1, len(groups) // (100 if ctx.quick else 2000))
            G.replay(ctx, 2, [v["honest"] for i, (k_, v) in enumerate(groups) if i % step == 0 and v["honest"]], attack_every=2)
    ctx.cov["distinct_nontrivial"] = (n1 or 0) + (n2 or 0)
    ctx.cov["rule"] = ("as C06/C12, with the override catalogue (alias / borrow / negative halves on LowHigh generators, flipped equality bit "
                       "with inverse 0 / 1/d / honest, free inverse, flipped split bits, p-alias bit patterns) applied on ~10 sampled hint "
                       "sites of half of the replayed batches, and on the gadget circuits of C30/C31; an accepted override must reproduce "
                       "the honest public output, a batch whose honest witness fails must stay rejected")
    ctx.cov["exhaustive"] = False
    return core.finish(ctx)


@register("C36")
def check_c36(ctx):
    tally, rng = common(ctx)
    runs = [("near", 2, 1)] if ctx.quick else [("full", 2, 1), ("near", 3, 1), ("near1", 2, 2)]
    for dom, m, n in runs:
        res = tlc(ctx, "MC_TwoLayer", "MC_TwoLayer.cfg", {"TLDOM": dom, "TLM": m, "TLN": n})
        if res["violated"]:
            ctx.violation(f"TLC: {res['violated']} violated in TwoLayer model (domain {dom}, M={m}, N={n})",
                          {"engine": "tlc", "tlc": core.tlc_counterexample(res["out"])})
            return core.finish(ctx)
    # the two layers the composition relies on
    if pb_model(ctx) and qb_model(ctx) and not ctx.replay:
        n, acc = wrapper_trace(ctx, "two", 150 if ctx.quick else 1500, tally, big=not ctx.quick)
        ctx.cov["two_trace"] = {"events": n, "accepted": acc}
        if acc == 0:
            raise core.ToolError("vacuity: no chained run was accepted")
        ctx.cov["distinct_nontrivial"] = acc
    report(ctx, tally, "C36", also=("C06", "C12"))
    ctx.cov["rule"] = ("TwoLayer.tla: all leaf sets over a small domain, all placements in the M x N grid, paddings at both layers; real side: "
                       "chained runs - M real private-batch wrapper runs over random compatible leaf sets (with dummy leaves and all-dummy "
                       "batches) whose real outputs are fed as inner statements to the real public-batch wrapper; each event is validated by "
                       "WrapperTrace (inner = specified aggregate of its leaves, public output = forwarding, end-to-end value and nullifier "
                       "conservation). distinct_nontrivial = accepted chained runs")
    ctx.cov["exhaustive"] = False
    return core.finish(ctx)


_NOTE = ("Trusted: TLC; Plonky2 gate constraints and FRI; the gadget contracts (C30/C31); Poseidon2 (dummy nullifiers are computed natively for "
         "the expected outputs; explored cases are collision-free); the value embedding of the harness (amount unit 2^30, digest number line "
         "built from real hashes). Exhaustive only for N, M <= 3 over small domains; N up to 64 is not explored (the builders are loops over N).")
_T = ("BatchDecl.tla states acceptance and output of both wrappers declaratively (from the property text); PrivateBatch.tla / PublicBatch.tla are the "
      "constraint programs as the code builds them. TLC proves program = declaration for all batches over small domains, plus conservation, "
      "order- and dummy-independence, and rejects spec mutants. The REAL constraint builders (hook-exported, over free child public inputs) are "
      "then evaluated on TLC-drawn batches by the production prover+verifier - verdict and every public input must equal the model's - on "
      "metamorphic variants, under hint overrides, and on seeded real-domain batches validated by WrapperTrace.tla. ")
MANIFEST = {
    "engines": {"wrappers": dict(
        path="specs/BatchDecl.tla specs/PrivateBatch.tla specs/PublicBatch.tla specs/TwoLayer.tla specs/WrapperTrace.tla specs/MC_PrivateBatch.tla "
             "specs/MC_PublicBatch.tla specs/MC_TwoLayer.tla harness/src/wrapper.rs harness/src/engine.rs vlib/props/wrappers.py",
        kind="TLA+ constraint-program specs + declarative semantics checked by TLC; replay on the real wrapper constraint builders through the "
             "adversarial-witness oracle; trace validation with limb arithmetic")},
    "checks": {
        "C06": dict(engine="wrappers", ref="6.3", text=_T + "C06: every public input of accepted private batches.", note=_NOTE),
        "C07": dict(engine="wrappers", ref="6.3", text=_T + "C07: verdicts (model vs real), invariance under slot permutation and under changes of dummy contents.", note=_NOTE),
        "C08": dict(engine="wrappers", ref="6.3", text=_T + "C08: conservation, as a TLC invariant of the declaration and re-computed on every accepted real output.", note=_NOTE),
        "C09": dict(engine="wrappers", ref="6.3 and 7 (F2)", text=_T + "C09: header / nullifier region / exit groups under permutations, dummy contents never reach "
                    "the output, zero slots; the literal zero-slot clause has one known exception class (finding F2, known_findings.json).", note=_NOTE),
        "C10": dict(engine="wrappers", ref="6.1", text=_T + "C10: override catalogue on the real hint generators of both wrappers and of the gadget circuits; the models have "
                    "no free wire once gadgets are replaced by their verified contracts.", note=_NOTE),
        "C12": dict(engine="wrappers", ref="6.3", text=_T + "C12: every public input of accepted public batches, segment ownership.", note=_NOTE),
        "C13": dict(engine="wrappers", ref="6.3", text=_T + "C13: verdicts of the public batch; contents, nullifiers and numbers never matter.", note=_NOTE),
        "C36": dict(engine="wrappers", ref="6.3", text="TwoLayer.tla composes the two declarative layers (each shown equal to its circuit by PrivateBatch.tla / "
                    "PublicBatch.tla) and TLC checks end-to-end value and nullifier conservation and that padding adds nothing, for all leaf sets and splits "
                    "over small domains. Real side: the two REAL wrapper circuits chained - private-batch outputs fed as inner statements of the public "
                    "batch - on seeded leaf sets with padding at both layers; every chained run is validated by WrapperTrace.tla.", note=_NOTE),
    },
}
