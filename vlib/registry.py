"""Property id -> check function."""
CHECKS = {}


def register(*ids):
    def deco(fn):
        for i in ids:
            CHECKS[i] = fn
        return fn
    return deco


def _load():
    import importlib
    import pkgutil
    from . import props
    for m in pkgutil.iter_modules(props.__path__):
        importlib.import_module(f"{props.__name__}.{m.name}")


_load()
